(* C20 — comments reach docstrings intact; whitespace clean-up never changes code meaning.
   Only statements, closed by [exact], each followed by Print Assumptions. *)
From GV Require Import Base.Str Gen.C20Lit Model.FixWs Model.Wrap Proofs.RxLemmas Proofs.FixWs Proofs.FixWsRuns Proofs.FixWsIdem Proofs.C20Pins
  Proofs.Words Proofs.TwWrap Proofs.Wrap Proofs.WrapWidth Proofs.WrapFit Proofs.WrapFull Proofs.RstSafe.
Local Open Scope nat_scope.

(* T0: the pins of Proofs/C20Pins.v are boolean comparisons against Gen/C20Lit.v, evaluated by the harness on every run. *)

(* ---- fix_whitespace, for every text ---- *)
(* (a) only blanks are deleted: the sequence of right-stripped non-blank lines is unchanged (indentation included) *)
Theorem C20_fixws_deletes_only_blanks : forall code,
  nonblank_lines (fix_whitespace code) = nonblank_lines code.
Proof. exact fixws_deletes_only_blanks. Qed.
Print Assumptions C20_fixws_deletes_only_blanks.

(* (b) the result is a body that is empty or ends in a non-whitespace character, followed by exactly one newline *)
Theorem C20_fixws_one_trailing_newline : forall code,
  exists body, fix_whitespace code = body ++ nl1 /\
               (body = "" \/ exists b c, body = b ++ s1 c /\ is_pyspace c = false).
Proof. exact fixws_one_trailing_newline. Qed.
Print Assumptions C20_fixws_one_trailing_newline.

(* (c) idempotent *)
Theorem C20_fixws_idempotent : forall code,
  fix_whitespace (fix_whitespace code) = fix_whitespace code.
Proof. exact fixws_idempotent. Qed.
Print Assumptions C20_fixws_idempotent.

(* what a match of the second and third regex is (the regex-level model against its reading) *)
Theorem C20_fixws_regex2_match : forall s repl rest, m2 s = Some (repl, rest) ->
  exists c0 a1 a2 a3 w,
    s = String c0 (a1 ++ String nl (a2 ++ String nl (a3 ++ String nl (w ++ rest)))) /\
    is_pyspace c0 = true /\ sall is_pyspace a1 = true /\ sall is_pyspace a2 = true /\ sall is_pyspace a3 = true /\
    In w kw2 /\ repl = nl3 ++ w.
Proof. exact m2_sound. Qed.
Print Assumptions C20_fixws_regex2_match.

Theorem C20_fixws_regex3_match : forall s repl rest, m3 s = Some (repl, rest) ->
  exists c0 a1 a2 j c,
    s = String c0 (a1 ++ String nl (a2 ++ String nl (rep (4 * S j) sp ++ String c rest))) /\
    is_pyspace c0 = true /\ sall is_pyspace a1 = true /\ sall is_pyspace a2 = true /\ is_c3 c = true /\
    repl = nl2 ++ rep (4 * S j) sp ++ s1 c.
Proof. exact m3_sound. Qed.
Print Assumptions C20_fixws_regex3_match.

(* non-vacuity: a text on which all three passes and the final strip act *)
Example C20_fixws_example :
  fix_whitespace (sx [120;32;32;10;10;32;10;10;10;100;101;102;32;102;58;10;10;10;32;32;32;32;112;9;10;10]%N)
  = sx [120;10;10;10;100;101;102;32;102;58;10;10;32;32;32;32;112;10]%N.
Proof. vm_compute. reflexivity. Qed.
Print Assumptions C20_fixws_example.

(* ---- textwrap as lines.py uses it (fill_words_preserved / fill_width_bound of DESIGN 6.20), for every text ---- *)
(* the words (str.split()) of the wrapped lines are the words of the text, in order, when the indents are blanks *)
Theorem C20_textwrap_words_preserved : forall W ii si text out,
  sall is_pyspace ii = true -> sall is_pyspace si = true ->
  tw_wrap W ii si text = Some (Some out) -> pywords (sjoin nl1 out) = pywords text.
Proof. exact tw_wrap_words_preserved. Qed.
Print Assumptions C20_textwrap_words_preserved.

(* every line respects the width, or is the indentation followed by one single chunk of the text *)
Theorem C20_textwrap_width_bound : forall W ii si text out,
  tw_wrap W ii si text = Some (Some out) ->
  forall line, In line out ->
    String.length line <= W \/
    exists c, In c (split_chunks (munge text)) /\ (line = (ii ++ c)%string \/ line = (si ++ c)%string).
Proof. exact tw_wrap_width_bound. Qed.
Print Assumptions C20_textwrap_width_bound.

(* such a chunk is blank or contains no whitespace at all: it is an unbreakable word *)
Theorem C20_textwrap_chunk_unbreakable : forall text c, In c (split_chunks (munge text)) ->
  (c <> ""%string /\ sall is_pyspace c = true) \/ (c <> ""%string /\ sall (fun x => negb (is_twspace x)) c = true).
Proof. exact chunk_unbreakable. Qed.
Print Assumptions C20_textwrap_chunk_unbreakable.

(* the loop of the model never runs out of its fuel *)
Theorem C20_textwrap_total : forall W ii si text, tw_wrap W ii si text <> Some None.
Proof. exact tw_wrap_total. Qed.
Print Assumptions C20_textwrap_total.

Theorem C20_wrap_total : forall text width offset indent, wrap text width offset indent <> OutOfFuel.
Proof. exact wrap_total. Qed.
Print Assumptions C20_wrap_total.

(* ---- gapic.utils.lines.wrap (with the prologue of the fix: tabs expanded, leading blanks dropped) ---- *)
(* FULL strength: whenever wrap returns a string, its words (str.split()) are exactly the words of the comment, in order:
   nothing is dropped, duplicated or reordered.  No hypothesis on the text, the width, the offset or the indent. *)
Theorem C20_wrap_words_preserved : forall text width offset indent out,
  wrap text width offset indent = Ok out -> pywords out = pywords text.
Proof. exact wrap_words_preserved. Qed.
Print Assumptions C20_wrap_words_preserved.

(* PARTIAL (width): the bound holds for the first line and for every line of every filled token the result is joined from;
   not re-expressed over result.split("\n") *)
Theorem C20_wrap_width_bound_partial : forall text width offset indent out,
  is_empty (wrap_prologue text) = false -> wrap text width offset indent = Ok out ->
  exists first text2, wrap_head (repl_nlsp (wrap_prologue text)) width offset = (Ok first, text2) /\
    first_ok (repl_nlsp (wrap_prologue text)) width offset first /\
    (out = strip first \/
     exists parts, out = rstrip_nl (first ++ sjoin nl1 parts) /\ Forall (part_ok width indent) parts).
Proof. exact wrap_width_bound_partial. Qed.
Print Assumptions C20_wrap_width_bound_partial.

(* a comment of blanks only gives the empty string (before the fix: IndexError when the blank first line had to be broken) *)
Theorem C20_wrap_blank : forall text width offset indent,
  is_empty (wrap_prologue text) = true -> wrap text width offset indent = Ok ""%string.
Proof. exact wrap_blank. Qed.
Print Assumptions C20_wrap_blank.

(* non-vacuity: an ordinary comment; and the three former counterexamples (TAB, leading blanks, blank first line, all with a
   first line that has to be broken) now come out with their words intact *)
Example C20_wrap_example :
  wrap "The quick brown fox jumps over the lazy dog. The quick brown fox" 40 7 4 =
    Ok (sx [84;104;101;32;113;117;105;99;107;32;98;114;111;119;110;32;102;111;120;32;106;117;109;112;115;32;111;118;101;114;10;
            32;32;32;32;116;104;101;32;108;97;122;121;32;100;111;103;46;32;84;104;101;32;113;117;105;99;107;32;98;114;111;119;110;32;102;111;120]%N) /\
  wrap (sx [97;9;98;32;99;99;99;99;32;100;100;100;100;32;101;101;101;101]%N) 12 0 0 =
    Ok (sx [97;32;32;32;32;32;32;32;98;10;99;99;99;99;32;100;100;100;100;10;101;101;101;101]%N) /\
  wrap "  ab cd" 3 0 0 = Ok (sx [97;98;10;99;100]%N) /\
  wrap "    " 3 0 0 = Ok ""%string /\
  is_empty (wrap_prologue "  ab cd") = false /\ is_empty (wrap_prologue "    ") = true.
Proof. vm_compute. repeat split. Qed.
Print Assumptions C20_wrap_example.

(* ---- gapic.utils.rst.rst, plain path: the result can be placed inside r"""...""" ---- *)
(* read as CPython's tokenizer reads the body of a raw triple-quoted literal (a backslash takes the next character with it,
   three consecutive unescaped quotes end the literal): the literal does not end inside the text, and at the end of the
   text no backslash is pending and no quote would join the closing ones; and the text ends neither in a backslash nor
   in a double quote *)
Theorem C20_rst_docstring_safe : forall text width indent nl_opt out,
  rst text width indent nl_opt = Ok out ->
  docstring_safe out /\ ends_with_c bs out = false /\ ends_with_c dq out = false.
Proof. exact rst_plain_docstring_safe. Qed.
Print Assumptions C20_rst_docstring_safe.

(* the same for the tail of rst alone, which the pandoc path shares: for EVERY answer *)
Theorem C20_rst_tail_safe : forall answer, docstring_safe (rst_tail answer).
Proof. exact rst_tail_safe. Qed.
Print Assumptions C20_rst_tail_safe.

(* "no three consecutive quotes in the result" is false of the code as it is (five quotes come out as an escaped triple
   followed by two quotes: the first of the last three is escaped, which is why the previous theorem still holds) *)
Theorem C20_rst_no_triple_quote_substring_refuted : exists answer pre post,
  rst_tail answer = (pre ++ String dq (String dq (String dq post)))%string.
Proof. exact rst_no_triple_quote_substring_refuted. Qed.
Print Assumptions C20_rst_no_triple_quote_substring_refuted.

Example C20_rst_example :
  rst (sx [85;115;101;32;34;34;34;116;114;105;112;108;101;34;34;34;32;97;110;100;32;67;58;92]%N) 72 4 None =
    Ok (sx [85;115;101;32;92;34;92;34;92;34;116;114;105;112;108;101;92;34;92;34;92;34;32;97;110;100;32;67;58;92;32]%N) /\
  rst "He said ""hello""" 72 4 None = Ok "He said ""hello"".".
Proof. vm_compute. repeat split. Qed.
Print Assumptions C20_rst_example.

(* non-vacuity of the textwrap theorems and of the two regex-match theorems: concrete instances of their hypotheses *)
Example C20_textwrap_example :
  tw_wrap 12 "  " "    " (sx [97;108;112;104;97;32;98;101;116;97;9;103;97;109;109;97;32;100;101;108;116;97;45;101;112;115;105;108;111;110;32;122;101;116;97]%N)
    = Some (Some ["  alpha beta"; "    gamma"; "    delta-epsilon"; "    zeta"]) /\
  sall is_pyspace "  " = true /\ sall is_pyspace "    " = true /\
  split_chunks (munge (sx [97;9;98]%N)) = ["a"; "       "; "b"].
Proof. vm_compute. repeat split. Qed.
Print Assumptions C20_textwrap_example.

Example C20_regex_match_examples :
  m2 (sx [120;10;10;10;10;100;101;102;32;102]%N) = None /\
  m2 (sx [32;10;10;9;10;100;101;102;32;102]%N) = Some (sx [10;10;10;100;101;102]%N, " f") /\
  m3 (sx [10;10;10;32;32;32;32;32;32;32;32;121;32;122]%N) = Some (sx [10;10;32;32;32;32;32;32;32;32;121]%N, " z").
Proof. vm_compute. repeat split. Qed.
Print Assumptions C20_regex_match_examples.
