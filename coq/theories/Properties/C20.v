(* C20 — comments reach docstrings intact; whitespace clean-up never changes code meaning.
   Only statements, closed by [exact], each followed by Print Assumptions. *)
From GV Require Import Base.Str Gen.C20Lit Model.FixWs Proofs.RxLemmas Proofs.FixWs Proofs.FixWsRuns Proofs.FixWsIdem Proofs.C20Pins.

(* ---- T0: the regex literals of formatter.py / lines.py / rst.py are the ones the models were written against ---- *)
Theorem C20_pin_fix_whitespace_regexes : fw_subs =
  [ ("[ ]+\n", s1 nl);
    ("\s+\n\s*\n\s*\n(class|def|@|#|_)", "\n\n\n\1");
    ("\s+\n\s*\n((    )+)(\w|_|@|#)", "\n\n\1\3") ].
Proof. exact pin_fw_subs. Qed.
Print Assumptions C20_pin_fix_whitespace_regexes.

(* ---- fix_whitespace, for every text ---- *)
(* (a) only blanks are deleted: the sequence of right-stripped non-blank lines is unchanged (indentation included) *)
Theorem C20_fixws_deletes_only_blanks : forall code,
  nonblank_lines (fix_whitespace code) = nonblank_lines code.
Proof. exact fixws_deletes_only_blanks. Qed.
Print Assumptions C20_fixws_deletes_only_blanks.

(* (b) the result is a body that is empty or ends in a non-whitespace character, followed by exactly one newline *)
Theorem C20_fixws_one_trailing_newline : forall code,
  exists body, fix_whitespace code = body ++ nl1 /\
               (body = "" \/ exists b c, body = b ++ s1 c /\ is_pyspace c = false).
Proof. exact fixws_one_trailing_newline. Qed.
Print Assumptions C20_fixws_one_trailing_newline.

(* (c) idempotent *)
Theorem C20_fixws_idempotent : forall code,
  fix_whitespace (fix_whitespace code) = fix_whitespace code.
Proof. exact fixws_idempotent. Qed.
Print Assumptions C20_fixws_idempotent.

(* what a match of the second and third regex is (the regex-level model against its reading) *)
Theorem C20_fixws_regex2_match : forall s repl rest, m2 s = Some (repl, rest) ->
  exists c0 a1 a2 a3 w,
    s = String c0 (a1 ++ String nl (a2 ++ String nl (a3 ++ String nl (w ++ rest)))) /\
    is_pyspace c0 = true /\ sall is_pyspace a1 = true /\ sall is_pyspace a2 = true /\ sall is_pyspace a3 = true /\
    In w kw2 /\ repl = nl3 ++ w.
Proof. exact m2_sound. Qed.
Print Assumptions C20_fixws_regex2_match.

Theorem C20_fixws_regex3_match : forall s repl rest, m3 s = Some (repl, rest) ->
  exists c0 a1 a2 j c,
    s = String c0 (a1 ++ String nl (a2 ++ String nl (rep (4 * S j) sp ++ String c rest))) /\
    is_pyspace c0 = true /\ sall is_pyspace a1 = true /\ sall is_pyspace a2 = true /\ is_c3 c = true /\
    repl = nl2 ++ rep (4 * S j) sp ++ s1 c.
Proof. exact m3_sound. Qed.
Print Assumptions C20_fixws_regex3_match.

(* non-vacuity: a text on which all three passes and the final strip act *)
Example C20_fixws_example :
  fix_whitespace (sx [120;32;32;10;10;32;10;10;10;100;101;102;32;102;58;10;10;10;32;32;32;32;112;9;10;10]%N)
  = sx [120;10;10;10;100;101;102;32;102;58;10;10;32;32;32;32;112;10]%N.
Proof. vm_compute. reflexivity. Qed.
Print Assumptions C20_fixws_example.
