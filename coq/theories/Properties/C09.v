(* C09 — default retry and timeout of each method equal its gRPC service-config entry.
   Only statements, closed by [exact], each followed by Print Assumptions.
   [jitter] is the random draw of api_core's exponential_sleep_generator: an arbitrary function bounded by its
   second argument (an explicit hypothesis, never an axiom). *)
From Coq Require Import QArith Qminmax.
From GV Require Import Base.Str Gen.RetryGen Model.Retry Proofs.Retry.
Open Scope string_scope.
Open Scope Q_scope.

(* first stage: the first entry that names the method exactly *)
Theorem C09_selector_first_match : forall cfg service method mc,
  lookup_exact cfg service method = Some mc <->
  exists pre post, cfg = (pre ++ mc :: post)%list /\ names_exactly service method mc /\
                   (forall c, In c pre -> ~ names_exactly service method c).
Proof. exact selector_first_match. Qed.
Print Assumptions C09_selector_first_match.

(* the entry that applies: an exact name anywhere beats every service-wide name; without one, the first entry naming
   the whole service (the service alone, or with an empty method) *)
Theorem C09_selector_exact_then_service : forall cfg service method mc,
  lookup cfg service method = Some mc <->
  (exists pre post, cfg = (pre ++ mc :: post)%list /\ names_exactly service method mc /\
                    (forall c, In c pre -> ~ names_exactly service method c))
  \/
  ((forall c, In c cfg -> ~ names_exactly service method c) /\
   exists pre post, cfg = (pre ++ mc :: post)%list /\ names_whole_service service mc /\
                    (forall c, In c pre -> ~ names_whole_service service c)).
Proof. exact selector_exact_then_service. Qed.
Print Assumptions C09_selector_exact_then_service.

Theorem C09_lookup_none : forall cfg service method,
  lookup cfg service method = None <->
  (forall c, In c cfg -> ~ names_exactly service method c /\ ~ names_whole_service service c).
Proof. exact lookup_none. Qed.
Print Assumptions C09_lookup_none.

Theorem C09_service_wide_entry_applies : forall cfg service method mc,
  (forall c, In c cfg -> ~ names_exactly service method c) ->
  In mc cfg -> names_whole_service service mc ->
  exists mc', lookup cfg service method = Some mc' /\ names_whole_service service mc'.
Proof. exact service_wide_entry_applies. Qed.
Print Assumptions C09_service_wide_entry_applies.

(* duration strings are converted exactly:  ip.fp followed by the unit letter  is  ip + fp / 10^|fp| *)
Theorem C09_to_float_exact : forall ip fp,
  sall is_digit ip = true -> sall is_digit fp = true -> (ip <> "" \/ fp <> "") ->
  exists q, to_float (ip ++ "." ++ fp ++ "s") = Some q /\
            q == inject_Z (dec_value ip) + inject_Z (dec_value fp) / inject_Z (10 ^ Z.of_nat (String.length fp)).
Proof. exact to_float_exact. Qed.
Print Assumptions C09_to_float_exact.

Theorem C09_to_float_exact_int : forall ip,
  sall is_digit ip = true -> ip <> "" -> to_float (ip ++ "s") = Some (inject_Z (dec_value ip)).
Proof. exact to_float_exact_int. Qed.
Print Assumptions C09_to_float_exact_int.

Theorem C09_to_float_exact_nanos : forall ip,
  sall is_digit ip = true -> ip <> "" -> to_float (ip ++ "n") = Some (dec_value ip # 1000000000).
Proof. exact to_float_exact_nanos. Qed.
Print Assumptions C09_to_float_exact_nanos.

(* the printed row as a function of the entry: Retry arguments (through api_core's defaults for the ones left
   out), the entry's timeout as default_timeout AND as the Retry deadline, and a predicate that accepts exactly the
   entry's status codes among the sixteen error codes *)
Theorem C09_table_spec : forall mc rp t ib mb,
  mc_retry mc = Some rp ->
  parse_timeout (mc_timeout mc) = inr t ->
  duration_or_zero (rp_initial rp) = inr ib ->
  duration_or_zero (rp_max rp) = inr mb ->
  Forall (fun c => In c ERR_CODES) (rp_codes rp) ->
  exists er, emit_entry (Some mc) = GenOk (mkE (Some er) t) /\
    let p := effective er in
    let m := match rp_multiplier rp with Some m => m | None => 0 end in
    (if Qeq_bool ib 0 then r_initial p = DEFAULT_INITIAL else r_initial p = ib) /\
    (if Qeq_bool mb 0 then r_maximum p = DEFAULT_MAXIMUM else r_maximum p = mb) /\
    (if Qeq_bool m 0 then r_multiplier p = DEFAULT_MULTIPLIER else r_multiplier p = m) /\
    r_deadline p = t /\ e_timeout (mkE (Some er) t) = t /\
    (forall c, In c ERR_CODES -> accepts (r_classes p) c = mem_str c (rp_codes rp)).
Proof. exact table_spec. Qed.
Print Assumptions C09_table_spec.

Theorem C09_table_no_policy : forall mc t,
  mc_retry mc = None -> parse_timeout (mc_timeout mc) = inr t -> emit_entry (Some mc) = GenOk (mkE None t).
Proof. exact table_no_policy. Qed.
Print Assumptions C09_table_no_policy.

(* finite, over the regenerated tables: the class printed for a status code catches that code and no other *)
Theorem C09_class_table_exact :
  forallb (fun code => forallb (fun c =>
     Bool.eqb (match class_of_code code with Some k => class_accepts k c | None => false end) (String.eqb code c))
     ERR_CODES) ERR_CODES = true.
Proof. exact class_table_exact. Qed.
Print Assumptions C09_class_table_exact.

(* retryable^k then OK | a status that is not retryable, within the deadline: k+1 attempts, k waits *)
Theorem C09_attempts_spec : forall jitter : nat -> Q -> Q,
  (forall i d, 0 <= d -> 0 <= jitter i d /\ jitter i d <= d) ->
  forall p t codes term tail,
  0 <= r_initial p -> 0 <= r_maximum p -> 0 <= r_multiplier p ->
  Forall (fun c => accepts (r_classes p) c = true) codes ->
  match term with TSurface c => accepts (r_classes p) c = false | TOk => True end ->
  (forall D, r_deadline p = Some D -> sum_from p 0 (length codes) <= D) ->
  let tr := run jitter (Some p) t (map Err codes ++ term_reply term :: tail)%list in
  t_attempts tr = S (length codes) /\ t_final tr = term_final term /\
  length (t_sleeps tr) = length codes /\ length (t_timeouts tr) = S (length codes).
Proof. exact attempts_spec. Qed.
Print Assumptions C09_attempts_spec.

Theorem C09_non_retryable_single_attempt : forall (jitter : nat -> Q -> Q) p t c tail,
  accepts (r_classes p) c = false ->
  let tr := run jitter (Some p) t (Err c :: tail) in
  t_attempts tr = 1%nat /\ t_final tr = FSurfaced c /\ t_sleeps tr = [].
Proof. exact non_retryable_single_attempt. Qed.
Print Assumptions C09_non_retryable_single_attempt.

(* the i-th wait is between zero and min(initial * multiplier^i, maximum) *)
Theorem C09_sleep_bounds : forall jitter : nat -> Q -> Q,
  (forall i d, 0 <= d -> 0 <= jitter i d /\ jitter i d <= d) ->
  forall p t script,
  0 <= r_initial p -> 0 <= r_maximum p -> 0 <= r_multiplier p ->
  bounded_from p 0 (t_sleeps (run jitter (Some p) t script)) /\
  (forall i, 0 <= delay_at p i /\ delay_at p i <= r_maximum p) /\
  (1 <= r_multiplier p -> forall i, delay_at p i == Qmin (r_initial p * qpow (r_multiplier p) i) (r_maximum p)).
Proof. exact sleep_bounds. Qed.
Print Assumptions C09_sleep_bounds.

(* the timeout as overall retry deadline, for every fault sequence and every jitter *)
Theorem C09_deadline_respected : forall (jitter : nat -> Q -> Q) p t script D,
  r_deadline p = Some D -> 0 <= D -> qsum (t_sleeps (run jitter (Some p) t script)) <= D.
Proof. exact deadline_respected. Qed.
Print Assumptions C09_deadline_respected.

(* the timeout as call deadline *)
Theorem C09_call_deadline : forall jitter : nat -> Q -> Q,
  (forall i d, 0 <= d -> 0 <= jitter i d /\ jitter i d <= d) ->
  forall r T rep script,
  (exists x, hd_error (t_timeouts (run jitter r (Some T) (rep :: script))) = Some (Some x) /\ x == T) /\
  (forall p, r = Some p -> 0 <= r_initial p -> 0 <= r_maximum p -> 0 <= r_multiplier p ->
     Forall (fun o => exists x, o = Some x /\ x <= T) (t_timeouts (run jitter r (Some T) (rep :: script)))).
Proof. exact call_deadline. Qed.
Print Assumptions C09_call_deadline.

Theorem C09_unnamed_method_single_attempt_no_deadline : forall (jitter : nat -> Q -> Q) cfg service method rep script,
  (forall c, In c cfg -> ~ names_exactly service method c /\ ~ names_whole_service service c) ->
  emit cfg service method = GenOk (mkE None None) /\
  let tr := call jitter (mkE None None) UseDefault UseDefault (rep :: script) in
  t_attempts tr = 1%nat /\ t_timeouts tr = [None] /\ t_sleeps tr = [] /\
  t_final tr = match rep with Ok => FOk | Err c => FSurfaced c end.
Proof. exact unnamed_method_single_attempt_no_deadline. Qed.
Print Assumptions C09_unnamed_method_single_attempt_no_deadline.

Theorem C09_explicit_overrides_default : forall (jitter : nat -> Q -> Q) row row' r t script,
  call jitter row (Given r) (Given t) script = call jitter row' (Given r) (Given t) script /\
  call jitter row (Given r) (Given t) script = run jitter r t script /\
  call jitter row (Given r) UseDefault script = run jitter r (e_timeout row) script /\
  call jitter row UseDefault (Given t) script = run jitter (option_map effective (e_retry row)) t script /\
  (forall rep rest, script = rep :: rest ->
     t_attempts (call jitter row (Given None) (Given t) script) = 1%nat /\
     t_timeouts (call jitter row (Given None) (Given t) script) = [attempt_timeout t 0]).
Proof. exact explicit_overrides_default. Qed.
Print Assumptions C09_explicit_overrides_default.

(* selective generation: an rpc generated as an internal _method keeps the row of its service-config entry *)
Theorem C09_internal_methods_keep_defaults : forall internal cfg service method,
  row_of internal cfg service method = emit cfg service method /\
  row_of internal cfg service method = row_of false cfg service method.
Proof. exact internal_methods_keep_defaults. Qed.
Print Assumptions C09_internal_methods_keep_defaults.

(* paged methods: every page request of a listing is a call with the caller's arguments; an explicit timeout is carried
   by the first attempt of every page *)
Theorem C09_listing_every_page : forall (jitter : nat -> Q -> Q) row retry timeout scripts i s,
  nth_error scripts i = Some s ->
  nth_error (listing jitter row retry timeout scripts) i = Some (call jitter row retry timeout s).
Proof. exact listing_every_page. Qed.
Print Assumptions C09_listing_every_page.

Theorem C09_listing_explicit_timeout : forall jitter : nat -> Q -> Q,
  (forall i d, 0 <= d -> 0 <= jitter i d /\ jitter i d <= d) ->
  forall row row' retry T scripts i rep rest,
  nth_error scripts i = Some (rep :: rest) ->
  exists tr x, nth_error (listing jitter row retry (Given (Some T)) scripts) i = Some tr /\
               nth_error (listing jitter row' retry (Given (Some T)) scripts) i = Some (call jitter row' retry (Given (Some T)) (rep :: rest)) /\
               hd_error (t_timeouts tr) = Some (Some x) /\ x == T.
Proof. exact listing_explicit_timeout. Qed.
Print Assumptions C09_listing_explicit_timeout.

(* the code as it is *)
Theorem C09_ok_code_catches_everything :
  exists k, class_of_code "OK" = Some k /\ forallb (fun c => class_accepts k c) ERR_CODES = true.
Proof. exact ok_code_catches_everything. Qed.
Print Assumptions C09_ok_code_catches_everything.

(* pins of the regenerated constants the model was written against *)
Theorem C09_pins :
  TEMPLATE_ASYNC = TEMPLATE_SYNC /\
  TEMPLATE_SYNC =
    [("initial", "method.retry.initial_backoff", ["method.retry"; "method.retry.initial_backoff"]);
     ("maximum", "method.retry.max_backoff", ["method.retry"; "method.retry.max_backoff"]);
     ("multiplier", "method.retry.backoff_multiplier", ["method.retry"; "method.retry.backoff_multiplier"]);
     ("deadline", "method.timeout", ["method.retry"]);
     ("default_timeout", "method.timeout", [])] /\
  DEFAULT_INITIAL = 1 /\ DEFAULT_MAXIMUM = 60 # 1 /\ DEFAULT_MULTIPLIER = 2 # 1.
Proof. exact (conj pin_template_async (conj pin_template_sync pin_api_core_defaults)). Qed.
Print Assumptions C09_pins.

(* non-vacuity: every hypothesis above holds of a concrete configuration, policy and fault sequence *)
Example C09_hypotheses_hold :
  emit ex_cfg "p.v1.Alpha" "GetA" =
    GenOk (mkE (Some (mkER (Some (5 # 10)) (Some (1250 # 1000)) (Some (13 # 10)) ["DeadlineExceeded"; "ServiceUnavailable"] (Some (60 # 1))))
               (Some (60 # 1)))
  /\ emit ex_cfg "p.v1.Alpha" "Other" = GenOk (mkE None None)
  /\ emit ex_cfg "p.v1.Beta" "Anything" = GenOk (mkE None (Some (9 # 1)))
  /\ Forall (fun c => In c ERR_CODES) ["UNAVAILABLE"; "DEADLINE_EXCEEDED"]
  /\ 0 <= r_initial ex_params /\ 0 <= r_maximum ex_params /\ 1 <= r_multiplier ex_params
  /\ Forall (fun c => accepts (r_classes ex_params) c = true) ["UNAVAILABLE"; "DEADLINE_EXCEEDED"; "UNAVAILABLE"]
  /\ accepts (r_classes ex_params) "ABORTED" = false
  /\ sum_from ex_params 0 3 <= 60 # 1
  /\ t_attempts (run jitter_max (Some ex_params) (Some (60 # 1)) [Err "UNAVAILABLE"; Err "DEADLINE_EXCEEDED"; Err "UNAVAILABLE"; Ok]) = 4%nat.
Proof. exact ex_hypotheses. Qed.
Print Assumptions C09_hypotheses_hold.

Example C09_jitter_hypothesis_holds : forall i d, 0 <= d -> 0 <= jitter_max i d /\ jitter_max i d <= d.
Proof. exact jitter_max_bounds. Qed.
Print Assumptions C09_jitter_hypothesis_holds.

Example C09_table_hypotheses_hold :
  let mc := mkMC [mkName (Some "p.v1.Alpha") (Some "GetA")] (Some "60s")
                 (Some (mkPolicy (Some "0.5s") (Some "1.250s") (Some (13 # 10)) ["UNAVAILABLE"; "DEADLINE_EXCEEDED"])) in
  parse_timeout (mc_timeout mc) = inr (Some (60 # 1))
  /\ duration_or_zero (Some "0.5s") = inr (5 # 10) /\ duration_or_zero (Some "1.250s") = inr (1250 # 1000)
  /\ Forall (fun c => In c ERR_CODES) ["UNAVAILABLE"; "DEADLINE_EXCEEDED"]
  /\ length ERR_CODES = 16%nat
  /\ sall is_digit "1" = true /\ sall is_digit "250" = true /\ dec_value "250" = 250%Z /\ "1"%string <> ""%string
  /\ to_float "1.250s" = Some (1250 # 1000).
Proof. exact ex_table_hypotheses. Qed.
Print Assumptions C09_table_hypotheses_hold.

(* the deadline on every surface (grpc, grpc_asyncio, sync and asyncio REST) and for both shapes of rpc (unary, server
   streaming): what the transport hands down for an attempt bounds connecting AND reading by the attempt's timeout -
   the whole timeout on the first attempt, never more on later ones, never unbounded.  hand_down is tied to the emitted
   _get_response of the REST stubs (timeout= keyword read with ast, T1) and to the session / channel arguments recorded
   by the driver (T2) *)
Theorem C09_deadline_on_every_surface : forall jitter : nat -> Q -> Q,
  (forall i d, 0 <= d -> 0 <= jitter i d /\ jitter i d <= d) ->
  forall s sh r T rep script,
  (exists h x, hd_error (wire s sh (run jitter r (Some T) (rep :: script))) = Some h /\
               read_deadline h = Some x /\ connect_deadline h = Some x /\ x == T) /\
  (forall p, r = Some p -> 0 <= r_initial p -> 0 <= r_maximum p -> 0 <= r_multiplier p ->
     Forall (fun h => exists x, read_deadline h = Some x /\ connect_deadline h = Some x /\ x <= T)
            (wire s sh (run jitter r (Some T) (rep :: script)))).
Proof. exact deadline_on_every_surface. Qed.
Print Assumptions C09_deadline_on_every_surface.

(* a server stream over sync REST, 7.5 s and two retryable faults: 7.5, 7, 6.35 seconds; and what the theorem excludes:
   a (connect, read) pair whose read part is None carries no read deadline *)
Example C09_server_stream_over_rest :
  list_eqb handed_eqb
    (wire SRest ServerStreaming
          (run jitter_max (Some ex_params) (Some (15 # 2)) [Err "UNAVAILABLE"; Err "UNAVAILABLE"; Ok]))
    [Scalar (Some (15 # 2)); Scalar (Some (7 # 1)); Scalar (Some (127 # 20))] = true
  /\ map read_deadline [Pair (Some (15 # 2)) None] = [None].
Proof. exact ex_server_stream_over_rest. Qed.
Print Assumptions C09_server_stream_over_rest.
