(* C13 — the emitted unit tests pass against the emitted library.  PARTIAL: proved here is that the sample request
   values the emitted REST tests are built from match the URI template they are substituted into (for every template
   and every counter state); that the 6k-line emitted suite passes is only exercised (DESIGN.md 6.13, 8, 10). *)
From GV Require Import Base.Str Model.Mock Proofs.Mock.

Theorem C13_sample_matches_template : forall t k, matches t (fst (instantiate k t)) = true.
Proof. exact sample_matches. Qed.
Print Assumptions C13_sample_matches_template.

Theorem C13_sample_names_wellformed : forall n, seg_ok (sample_name n) = true.
Proof. exact sample_name_ok. Qed.
Print Assumptions C13_sample_names_wellformed.

Theorem C13_counter_monotone : forall t k, k <= snd (instantiate k t).
Proof. exact instantiate_counter. Qed.
Print Assumptions C13_counter_monotone.

(* non-string path fields (default single-segment template): the mock value renders as one valid segment *)
Theorem C13_typed_nonstring_matches : forall v, (exists n, v = VI n) \/ (exists b, v = VB b) -> matches [SStar] (render v) = true.
Proof. exact typed_nonstring_matches. Qed.
Print Assumptions C13_typed_nonstring_matches.

Example C13_nontrivial :
  sample_value 0 [SLit "v1"; SLit "projects"; SStar; SLit "books"; SDStar] = "v1/projects/sample1/books/sample2"
  /\ matches [SLit "projects"; SStar; SDStar] ["projects"; "p"; "a"; "b"] = true
  /\ matches [SLit "projects"; SStar] ["projects"; ""] = false
  /\ sample_name 12 = "sample12"
  /\ sample_typed 0 [("project_number", "project_number", PInt, [SStar]); ("name", "name", PStr, [SLit "a"; SStar])]
     = [("project_number", VI 1503); ("name", VS "a/sample1")].
Proof. vm_compute. repeat split. Qed.
Print Assumptions C13_nontrivial.
