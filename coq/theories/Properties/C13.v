(* C13 — the emitted unit tests pass against the emitted library.  PARTIAL: proved here is that the sample request
   values the emitted REST tests are built from match the URI template they are substituted into (for every template
   and every counter state); that the 6k-line emitted suite passes is only exercised (DESIGN.md 6.13, 8, 10). *)
From GV Require Import Base.Str Model.Mock Proofs.Mock Model.Asserts Proofs.Asserts.

Theorem C13_sample_matches_template : forall t k, matches t (fst (instantiate k t)) = true.
Proof. exact sample_matches. Qed.
Print Assumptions C13_sample_matches_template.

Theorem C13_sample_names_wellformed : forall n, seg_ok (sample_name n) = true.
Proof. exact sample_name_ok. Qed.
Print Assumptions C13_sample_names_wellformed.

Theorem C13_counter_monotone : forall t k, k <= snd (instantiate k t).
Proof. exact instantiate_counter. Qed.
Print Assumptions C13_counter_monotone.

(* non-string path fields (default single-segment template): the mock value renders as one valid segment *)
Theorem C13_typed_nonstring_matches : forall v, (exists n, v = VI n) \/ (exists b, v = VB b) -> matches [SStar] (render v) = true.
Proof. exact typed_nonstring_matches. Qed.
Print Assumptions C13_typed_nonstring_matches.

Example C13_nontrivial :
  sample_value 0 [SLit "v1"; SLit "projects"; SStar; SLit "books"; SDStar] = "v1/projects/sample1/books/sample2"
  /\ matches [SLit "projects"; SStar; SDStar] ["projects"; "p"; "a"; "b"] = true
  /\ matches [SLit "projects"; SStar] ["projects"; ""] = false
  /\ sample_name 12 = "sample12"
  /\ sample_typed 0 [("project_number", "project_number", PInt, [SStar]); ("name", "name", PStr, [SLit "a"; SStar])]
     = [("project_number", VI 1503); ("name", VS "a/sample1")].
Proof. vm_compute. repeat split. Qed.
Print Assumptions C13_nontrivial.

(* ---- the recursive mock value (Field.mock_value_original_type) ---- *)
From GV Require Import Model.MockDfs Proofs.MockDfs.

(* with a visited set threaded through the traversal the mock value is defined for EVERY schema, however recursive:
   fuel = number of message types + 1 is never exhausted (contrast: samplegen's request object, C14) *)
Theorem C13_mock_terminates : forall sch, schema_wf sch ->
  forall fuel visited f, field_wf sch f -> unvisited sch visited < fuel ->
  exists v visited', mock fuel sch visited f = Some (v, visited') /\ incl visited visited'.
Proof. exact mock_total. Qed.
Print Assumptions C13_mock_terminates.

Theorem C13_mock_top_total : forall sch f, schema_wf sch -> field_wf sch f ->
  exists v visited', mock (S (length sch)) sch [] f = Some (v, visited').
Proof. exact mock_top_total. Qed.
Print Assumptions C13_mock_top_total.

Example C13_mock_recursive_example :
  let sch := [("Turtle", [ {| mf_name := "turtle"; mf_kind := MMsg "Turtle"; mf_rep := false |};
                           {| mf_name := "name"; mf_kind := MPrim PkStr; mf_rep := false |} ])] in
  mock 2 sch [] {| mf_name := "t"; mf_kind := MMsg "Turtle"; mf_rep := false |}
  = Some (MVDict [("turtle", MVDict []); ("name", MVStr "name_value")], ["Turtle"]).
Proof. exact mock_recursive_example. Qed.
Print Assumptions C13_mock_recursive_example.

(* ---- the response-field assertions of the emitted tests ----
   For every scalar field shape the comparison form chosen by the ladder succeeds on a correct library. *)
Theorem C13_assert_form_holds : forall ty repeated, In ty SCALAR_TYPES -> holds (assert_form ty repeated) ty repeated = true.
Proof. exact assert_form_holds. Qed.
Print Assumptions C13_assert_form_holds.

Theorem C13_assert_form_is_iff : forall ty repeated, assert_form ty repeated = AIs <-> (ty = 8 /\ repeated = false).
Proof. exact assert_form_is_iff. Qed.
Print Assumptions C13_assert_form_is_iff.

(* the guard on the bool arm is needed: without it a repeated bool field is compared by identity *)
Theorem C13_assert_form_unguarded_bool_refuted :
  exists ty repeated, In ty SCALAR_TYPES /\ holds (assert_form_unguarded_bool ty repeated) ty repeated = false.
Proof. exact assert_form_unguarded_bool_refuted. Qed.
Print Assumptions C13_assert_form_unguarded_bool_refuted.
