(* C16 -- selective generation keeps exactly the listed RPCs and a closed set of types.
   Only statements, closed by [exact], each followed by Print Assumptions. *)
From GV Require Import Base.Str Gen.SelectiveKw Model.Selective Proofs.Selective.
Open Scope list_scope.

(* the traversal never runs out of its bound: whenever the roots of the listed methods can be
   computed (no unbounded polling chain), the allow-list exists *)
Theorem C16_allowlist_total : forall g sel rs,
  roots g sel = Ok rs -> exists al, allowlist g sel = Ok al.
Proof. exact allowlist_total. Qed.
Print Assumptions C16_allowlist_total.

(* the allow-list API.build prunes with (traversal from the roots, then the closing loop) contains the
   roots, is closed under the edge relation (field types, nested messages and enums, resource
   references through the resource table) and under outermost enclosing messages of target files,
   and contains nothing that is not reachable from a root through those two kinds of steps *)
Theorem C16_allowlist_least_closed : forall g sel al,
  allowlist g sel = Ok al ->
  exists rs, roots g sel = Ok rs /\
    (forall r, In r rs -> In r al) /\
    closed g al /\ enclosed g al /\
    (forall x, In x al -> exists r, In r rs /\ ereach g r x).
Proof. exact allowlist_least_closed. Qed.
Print Assumptions C16_allowlist_least_closed.

(* hence it is the least such set *)
Theorem C16_allowlist_least : forall g sel al rs (T : addr -> Prop),
  allowlist g sel = Ok al -> roots g sel = Ok rs ->
  (forall r, In r rs -> T r) -> (forall a b, T a -> estep g a b -> T b) ->
  forall x, In x al -> T x.
Proof. exact allowlist_least. Qed.
Print Assumptions C16_allowlist_least.

(* has_allowlisted_descendant is what it says *)
Theorem C16_has_desc_spec : forall al m, has_desc al m = true <-> exists d, In d (desc m) /\ In d al.
Proof. exact has_desc_spec. Qed.
Print Assumptions C16_has_desc_spec.

(* the fuel of the polling-chain recursion never decides the result *)
Theorem C16_expand_fuel : forall f1 f2 avail all m,
  length avail <= f1 -> length avail <= f2 -> expand f1 avail all m = expand f2 avail all m.
Proof. exact expand_fuel. Qed.
Print Assumptions C16_expand_fuel.

(* pruning keeps exactly the allow-listed messages, enums, services and methods of a file, and
   drops the file exactly when nothing of it is allow-listed *)
Theorem C16_prune_exact : forall al f,
  match prune_file al f with
  | Some o =>
      o_name o = fi_name f /\ o_target o = fi_target f /\
      (forall a, In a (o_msgs o) <-> In a (map m_addr (all_msgs f)) /\ In a al) /\
      (forall a, In a (o_enums o) <-> In a (all_enums f) /\ In a al) /\
      (forall m, In m (o_top o) <-> In m (fi_msgs f) /\ In (m_addr m) al) /\
      (forall a, In a (o_top_enums o) <-> In a (fi_enums f) /\ In a al) /\
      (forall s', In s' (o_svcs o) <-> exists s, In s (fi_svcs f) /\ In (s_addr s) al /\ s' = prune_svc al s) /\
      (forall s m, In m (map om (os_methods (prune_svc al s))) <-> In m (s_methods s) /\ In (me_addr m) al)
  | None =>
      (forall m, In m (all_msgs f) -> ~ In (m_addr m) al) /\
      (forall a, In a (all_enums f) -> ~ In a al) /\
      (forall s, In s (fi_svcs f) -> ~ In (s_addr s) al)
  end.
Proof. exact prune_exact. Qed.
Print Assumptions C16_prune_exact.

Theorem C16_dependencies_untouched : forall g pkg l out f,
  build g pkg l = Built out -> In f g -> fi_target f = false -> In (full_ofile f) out.
Proof. exact dependencies_untouched. Qed.
Print Assumptions C16_dependencies_untouched.

(* no dangling reference, at full strength and for every outcome of API.build (full, internal,
   selective): every type of the target package named by a field of a rendered message declaration is
   itself rendered.  wf_table g (unique addresses) is needed because the model follows a field's type
   by looking its address up, where the code follows an object reference; the two coincide exactly
   when addresses are unique, which protoc guarantees and the harness checks (wf_tableb) per graph. *)
Theorem C16_no_dangling : forall g pkg l out, wf_table g -> build g pkg l = Built out ->
  forall m t, In m (rendered_nodes out) -> In t (type_refs m) -> In t (target_types g) -> In t (rendered out).
Proof. exact no_dangling. Qed.
Print Assumptions C16_no_dangling.

Theorem C16_no_dangling_list : forall g pkg l out,
  wf_table g -> build g pkg l = Built out -> dangling g out = [].
Proof. exact no_dangling_list. Qed.
Print Assumptions C16_no_dangling_list.

(* generate_omitted_as_internal: nothing is omitted; internal = unlisted method of a target file *)
Theorem C16_internal_keeps_everything : forall g pkg l s out,
  build g pkg l = Built out -> setting_for pkg l = Some s -> ls_methods s <> [] -> ls_internal s = true ->
  forall f, In f g ->
    exists o, In o out /\ o_name o = fi_name f /\
      o_msgs o = map m_addr (all_msgs f) /\ o_enums o = all_enums f /\
      o_top o = fi_msgs f /\ o_top_enums o = fi_enums f /\
      rendered_file o = rendered_file (full_ofile f) /\
      map os_addr (o_svcs o) = map s_addr (fi_svcs f) /\
      map (fun x => map om (os_methods x)) (o_svcs o) = map s_methods (fi_svcs f) /\
      (forall x m, In x (o_svcs o) -> In m (os_methods x) ->
         om_internal m = fi_target f && negb (mem (me_addr (om m)) (ls_methods s))).
Proof. exact internal_keeps_everything. Qed.
Print Assumptions C16_internal_keeps_everything.

(* internal methods get a leading underscore, their services the prefix Base *)
Theorem C16_internal_method_name : forall m,
  om_internal m = true -> starts_with "_" (client_method_name m) = true.
Proof. exact internal_method_name. Qed.
Print Assumptions C16_internal_method_name.

Theorem C16_public_method_name_kept : forall m,
  om_internal m = false -> client_method_name m = public_method_name (om m).
Proof. exact public_method_name_kept. Qed.
Print Assumptions C16_public_method_name_kept.

Theorem C16_client_name_internal : forall pub s,
  client_name (internal_svc pub s) =
  if existsb (fun m => negb (mem (me_addr m) pub)) (s_methods s)
  then ("Base" ++ s_name s ++ "Client")%string else (s_name s ++ "Client")%string.
Proof. exact client_name_internal. Qed.
Print Assumptions C16_client_name_internal.

(* rejected exactly when a version is repeated, or a listed method is not a method of the target
   package, or does not start with the version of its entry *)
Theorem C16_validation_iff : forall g pkg l,
  (exists e, build g pkg l = Rejected e) <-> ~ valid_settings (all_methods g) l.
Proof. exact validation_iff. Qed.
Print Assumptions C16_validation_iff.

(* ---- non-vacuity: the hypotheses above hold of concrete, non-trivial objects ---- *)
Example C16_ex_wf : wf_table ex_g.
Proof. exact ex_wf. Qed.
Print Assumptions C16_ex_wf.

Example C16_ex_allowlist :
  allowlist ex_g ex_sel = Ok ex_al /\
  set_eqb ex_al
    [P "Library"; P "Library.GetBook"; P "Library.Import"; P "Library.Start"; P "Ops"; P "Ops.Get";
     P "GetBookRequest"; P "Book"; P "Shelf"; P "Shelf.Slot"; P "Shelf.LabelsEntry"; P "Shelf.Tier"; P "TopKind";
     "google.dep.Meta"; P "ImportRequest"; P "ImportResponse"; P "ImportMetadata"; "google.longrunning.Operation";
     P "Operation"; P "GetOperationRequest"; P "StartRequest"] = true /\
  mem (P "Unused") ex_al = false /\ mem (P "ListShelvesRequest") ex_al = false /\ mem (P "Idle") ex_al = false.
Proof. exact ex_allowlist. Qed.
Print Assumptions C16_ex_allowlist.

Example C16_ex_dependency :
  exists out f, build ex_g wit_pkg (ex_l false) = Built out /\ In f ex_g /\ fi_target f = false /\ fi_msgs f <> [].
Proof. exact ex_dependency. Qed.
Print Assumptions C16_ex_dependency.

Example C16_ex_internal :
  exists out s, build ex_g wit_pkg (ex_l true) = Built out /\ setting_for wit_pkg (ex_l true) = Some s /\
    ls_methods s <> [] /\ ls_internal s = true /\
    option_map (fun o => map (fun x => (client_name x, async_client_name x, map client_method_name (os_methods x))) (o_svcs o))
               (find_ofile out "google/example/library/v1/library.proto")
    = Some [("BaseLibraryClient", "BaseLibraryAsyncClient", ["GetBook"; "_ListShelves"; "Import_"; "Start"]);
            ("BaseOpsClient", "BaseOpsAsyncClient", ["_Get"; "_Other"]);
            ("BaseIdleClient", "BaseIdleAsyncClient", ["_Nop"])].
Proof. exact ex_internal. Qed.
Print Assumptions C16_ex_internal.

Example C16_ex_validation :
  valid_settings (all_methods ex_g) (ex_l false) /\
  build ex_g wit_pkg [mkLS wit_pkg [P "Library.Nope"; P "Library.GetBook"] false]
    = Rejected [(wit_pkg, VSel [(P "Library.Nope", MNotFound)])] /\
  build ex_g wit_pkg [mkLS "google.example.library.v2" [P "Library.GetBook"] false]
    = Rejected [("google.example.library.v2", VSel [(P "Library.GetBook", MMismatch)])] /\
  build ex_g wit_pkg [mkLS wit_pkg [] false; mkLS wit_pkg [] true] = Rejected [(wit_pkg, VDup)].
Proof. exact ex_validation. Qed.
Print Assumptions C16_ex_validation.

Example C16_ex_polling_cycle :
  (forall s m, In s cyc_svcs -> In m (s_methods s) -> me_name m = "Start" ->
     method_roots cyc_svcs s m = Err ERecursion) /\
  (forall fuel, 2 <= fuel -> forall m, expand fuel cyc_svcs cyc_svcs m = expand 2 cyc_svcs cyc_svcs m).
Proof. exact ex_polling_cycle. Qed.
Print Assumptions C16_ex_polling_cycle.

(* the former counterexample: the closing loop keeps Outer, so Outer.Inner and Outer.Kind are rendered *)
Example C16_ex_enclosing_kept :
  wf_table wit_g /\
  has_desc [P "Outer.Inner"] (Msg (P "Outer") [fld_m (P "Outer.Inner")] [P "Outer.Kind"] [Msg (P "Outer.Inner") [fld_s] [] []]) = true /\
  match allowlist0 wit_g [P "Library.GetThing"], allowlist wit_g [P "Library.GetThing"], build wit_g wit_pkg wit_l with
  | Ok al0, Ok al, Built out =>
      mem (P "Outer") al0 = false /\ mem (P "Outer.Inner") al0 = true /\
      mem (P "Outer") al = true /\ mem (P "PutOuterRequest") al = false /\
      mem (P "Outer.Inner") (rendered out) = true /\ mem (P "Outer.Kind") (rendered out) = true /\
      option_map (fun o => map m_addr (o_top o)) (find_ofile out "google/example/library/v1/library.proto")
        = Some [P "Outer"; P "Thing"; P "GetThingRequest"] /\
      existsb (fun m => String.eqb (m_addr m) (P "GetThingRequest") && mem (P "Outer.Inner") (type_refs m)) (rendered_nodes out) = true /\
      mem (P "Outer.Inner") (target_types wit_g) = true /\
      dangling wit_g out = []
  | _, _, _ => False
  end.
Proof. exact ex_enclosing_kept. Qed.
Print Assumptions C16_ex_enclosing_kept.

(* both branches of prune_file occur, a second service and a whole file vanish, and nothing dangles *)
Example C16_ex_prune :
  prune_file ex_al (mkFile "google/example/library/v1/extra.proto" true [] [Msg (P "Orphan") [fld_s] [] []] [] []) = None /\
  (match build ex_g wit_pkg (ex_l false) with
   | Built out =>
       map o_name out = ["google/dep/common.proto"; "google/example/library/v1/resources.proto"; "google/example/library/v1/library.proto"]
       /\ option_map o_msgs (find_ofile out "google/example/library/v1/resources.proto")
          = Some [P "Shelf.Slot"; P "Shelf.LabelsEntry"; P "Shelf"; P "Book"]
       /\ option_map (fun o => map svc_view (o_svcs o)) (find_ofile out "google/example/library/v1/library.proto")
          = Some [(P "Library", ["GetBook"; "Import"; "Start"]); (P "Ops", ["Get"])]
       /\ dangling ex_g out = []
   | _ => False
   end).
Proof. exact ex_prune. Qed.
Print Assumptions C16_ex_prune.

(* T0 pin: the source fragments read with ast from the working tree are the ones the model mirrors *)
Example C16_pin_naming :
  client_name_parts = ["Base"; ""; "Client"] /\
  async_client_name_parts = ["Base"; ""; "AsyncClient"] /\
  client_method_name_src = "name = self.name + '_' if self.name.lower() in keyword.kwlist else self.name; return make_private(name) if self.is_internal else name" /\
  make_private_src = "return object_name if object_name.startswith('_') else f'_{object_name}'" /\
  service_is_internal_src = "return any((m.is_internal for m in self.methods.values()))" /\
  method_with_internal_src = "if self.ident.proto in public_methods: return self; return dataclasses.replace(self, is_internal=True)" /\
  settings_error_strings = ["Duplicate version"; "Method does not exist."; "Mismatched version for method."; "selective_gapic_generation"] /\
  mem_str "import" kwlist = true /\ mem_str "get" kwlist = false.
Proof. exact pin_naming. Qed.
Print Assumptions C16_pin_naming.

(* the resource table (per file: the declarations by real messages, then Proto.resource_messages; first layer that knows
   the type wins): when all the declarations of a type name the same address -- in particular when the type is declared
   once -- the lookup does not depend on the order of the files of the request *)
Theorem C16_res_lookup_order_free : forall g g' t,
  Permutation.Permutation g g' -> res_agree g t -> res_lookup g t = res_lookup g' t.
Proof. exact res_lookup_order_free. Qed.
Print Assumptions C16_res_lookup_order_free.

(* the hypothesis holds of a graph with a resource message and an unrelated file-level definition *)
Example C16_ex_res_agree :
  res_agree [rt_res; mkFile "x.proto" true [] [] [] [("example.googleapis.com/Annex", "")]] rt_type /\
  res_lookup [rt_res; mkFile "x.proto" true [] [] [] [("example.googleapis.com/Annex", "")]] rt_type = Some (P "Shelf").
Proof. exact ex_res_agree. Qed.
Print Assumptions C16_ex_res_agree.

(* a resource reference to a type carried by a message resolves to that message, whatever file-level definitions of the type
   exist and wherever their files stand (the sentence the former finding selective.resource_declared_twice_file_level_first
   violated; repaired in /repo) *)
Theorem C16_res_lookup_prefers_message : forall g t a f,
  In f g -> In (t, a) (fi_res f) -> a <> "" ->
  (forall f' a', In f' g -> In (t, a') (fi_res f') -> a' <> "" -> a' = a) ->
  res_lookup g t = Some a.
Proof. exact res_lookup_prefers_message. Qed.
Print Assumptions C16_res_lookup_prefers_message.

(* the API of c16_util.resource_twice_api (type declared by the message Shelf in resources.proto and again at file level in
   library.proto): the declarations disagree, the lookup finds the message in either order *)
Example C16_ex_res_lookup_order :
  Permutation.Permutation [rt_res; rt_lib] [rt_lib; rt_res] /\ ~ res_agree [rt_res; rt_lib] rt_type /\
  res_lookup [rt_res; rt_lib] rt_type = Some (P "Shelf") /\ res_lookup [rt_lib; rt_res] rt_type = Some (P "Shelf").
Proof. exact ex_res_lookup_order. Qed.
Print Assumptions C16_ex_res_lookup_order.

(* the former witness of the finding, both orders of the files: the kept RPC keeps the resource message and everything only
   it leads to, and still prunes what nothing reaches *)
Theorem C16_resource_reference_keeps_message_witness :
  forall g, g = [rt_lib; rt_res] \/ g = [rt_res; rt_lib] ->
  rt_kept g (P "DeleteShelfRequest") = true /\ rt_kept g (P "Shelf") = true /\ rt_kept g (P "Shelf.Row") = true /\
  rt_kept g (P "Theme") = true /\ rt_kept g (P "Finish") = true /\ rt_kept g (P "Spare") = false.
Proof. exact resource_reference_keeps_message_witness. Qed.
Print Assumptions C16_resource_reference_keeps_message_witness.
