(* C03 — gRPC calls reach the right RPC with the caller's request and return the reply.
   Only statements, closed by [exact], each followed by Print Assumptions.
   Model: Model/Stubs.v (stub creation, the wrapped-method table, client lookups, the rpc call, _client_output)
   and Model/Flatten.v (the request coercion block). *)
From GV Require Import Base.Str Gen.StubsGen Model.Flatten Model.Stubs Proofs.Flatten Proofs.Stubs.

(* the path literal is /<package>.<Service>/<Method> and reads back unambiguously *)
Theorem C03_stub_path_spec : forall s m,
  no_slash (full_service s) -> no_slash (me_name m) ->
  st_path (stub_of s m) = ("/" ++ s_package s ++ "." ++ s_name s ++ "/" ++ me_name m)%string /\
  parse_path (st_path (stub_of s m)) = Some (full_service s, me_name m).
Proof. exact stub_path_spec. Qed.
Print Assumptions C03_stub_path_spec.

Theorem C03_stub_path_injective : forall s1 m1 s2 m2,
  no_slash (full_service s1) -> no_slash (me_name m1) -> no_slash (full_service s2) -> no_slash (me_name m2) ->
  st_path (stub_of s1 m1) = st_path (stub_of s2 m2) -> full_service s1 = full_service s2 /\ me_name m1 = me_name m2.
Proof. exact stub_path_injective. Qed.
Print Assumptions C03_stub_path_injective.

(* streaming flags <-> unary_unary | unary_stream | stream_unary | stream_stream is a bijection, and the stub uses it *)
Theorem C03_stub_kind_bijective :
  (forall cs ss, flags_of_kind (kind_of_flags cs ss) = (cs, ss)) /\
  (forall k, kind_of_flags (fst (flags_of_kind k)) (snd (flags_of_kind k)) = k) /\
  (forall k1 k2, kind_attr k1 = kind_attr k2 -> k1 = k2) /\
  (forall s m, st_kind (stub_of s m) = kind_of_flags (me_cs m) (me_ss m)).
Proof. exact stub_kind_bijective. Qed.
Print Assumptions C03_stub_kind_bijective.

(* under snake_names_distinct the client method of an RPC runs that RPC's body and reaches that RPC's stub *)
Theorem C03_keys_distinct : forall v s m,
  snake_names_distinct s -> NoDup (map client_name (s_methods s)) -> In m (s_methods s) ->
  live_meth s (client_name m) = Some m /\
  exists st, dispatch v s (mkCM (client_name m) Table (key_of m)) = Some st /\
             st_path st = mk_path (full_service s) (me_name m) /\
             st_kind st = kind_of_flags (me_cs m) (me_ss m).
Proof. exact keys_distinct. Qed.
Print Assumptions C03_keys_distinct.

Theorem C03_keys_distinct_refuted :
  exists s m, In m (s_methods s) /\ ~ snake_names_distinct s /\
    (forall v, exists st, dispatch v s (mkCM (client_name m) Table (key_of m)) = Some st /\
                          st_path st <> st_path (stub_of s m) /\ st_kind st <> st_kind (stub_of s m)) /\
    live_meth s (client_name m) <> Some m.
Proof. exact keys_distinct_refuted. Qed.
Print Assumptions C03_keys_distinct_refuted.

(* every table key a client method uses is a key of the table of the transport it runs on (no hypothesis left: the
   add-iam-methods exception of DESIGN section 9 no. 3 was repaired in /repo; its witness stays below) *)
Theorem C03_lookup_total : forall v s k, In k (client_lookup_keys v s) -> In k (wrapped_keys s).
Proof. exact lookup_total. Qed.
Print Assumptions C03_lookup_total.

Theorem C03_table_dispatch_defined : forall v s c,
  In c (client_methods v s) -> cm_form c = Table -> dispatch v s c = live s (cm_key c).
Proof. exact table_dispatch_defined. Qed.
Print Assumptions C03_table_dispatch_defined.

Theorem C03_legacy_iam_example :
  let s := mkSvc "p.v1" "Library" [mk "GetBook" false false] [] true in
  ~ In "set_iam_policy" (wrapped_keys s) /\
  (forall v, In (mkCM "set_iam_policy" Direct "set_iam_policy") (client_methods v s)) /\
  (forall v, exists st, dispatch v s (mkCM "set_iam_policy" Direct "set_iam_policy") = Some st /\
                        st_path st = "/google.iam.v1.IAMPolicy/SetIamPolicy") /\
  dispatch Async s (mkCM "set_iam_policy" Table "set_iam_policy") = None.
Proof. exact legacy_iam_example. Qed.
Print Assumptions C03_legacy_iam_example.

(* omitted, empty dict and empty message give the same request; a dict gives the message with those fields; a message
   instance is sent unchanged (one corner spelled out: a cross-package proto-plus request whose set fields all hold false
   values is replaced by a new empty message).  The hypothesis about maps holds of every cross-package mapping
   (C05_cross_mapping_no_maps). *)
Theorem C03_coerce_equiv : forall v m cross pp,
  NoDup (map fst m) -> fm_wf m -> (v = Async -> cross = true -> no_maps m) ->
  let b := emit v m cross pp in
  exec b RNone [] = OSend empty_req /\
  exec b (RDict empty_req) [] = OSend empty_req /\
  exec b (RMsg empty_req) [] = OSend empty_req /\
  (forall d, exec b (RDict d) [] = OSend d) /\
  (forall r, exec b (RMsg r) [] = OSend (if cross && msg_falsy pp r then empty_req else r)).
Proof. exact coerce_equiv. Qed.
Print Assumptions C03_coerce_equiv.

Theorem C03_void_returns_none : forall m,
  me_void m = true ->
  client_output m = ONone /\
  (forall v, c_assigned (call_of v m) = false /\ c_returns (call_of v m) = false) /\
  (forall replies, me_ss m = true \/ length replies = 1 -> client_result m replies = RetNone).
Proof. exact void_returns_none. Qed.
Print Assumptions C03_void_returns_none.

(* the statement "a streaming RPC hands every reply to the caller" fails for streams of google.protobuf.Empty:
   the templates test only method.void (reported finding stubs.streaming_empty_response_treated_as_void) *)
Theorem C03_stream_delivers_all_refuted :
  exists m replies, me_ss m = true /\ me_void m = true /\ replies <> [] /\
    client_result m replies <> RetStream replies /\ client_result m replies = RetNone /\
    (forall v, c_assigned (call_of v m) = false /\ c_returns (call_of v m) = false /\ c_awaited (call_of v m) = false).
Proof. exact stream_delivers_all_refuted. Qed.
Print Assumptions C03_stream_delivers_all_refuted.

Theorem C03_plain_returns_reply : forall m,
  me_void m = false ->
  (forall v, c_assigned (call_of v m) = true /\ c_returns (call_of v m) = true) /\
  (me_ss m = true -> forall replies, client_result m replies = RetStream replies) /\
  (me_ss m = false -> me_lro m = false -> me_paged m = false -> forall r, client_result m [r] = RetOne r) /\
  (forall n, requests_on_wire m n = if me_cs m then n else 1) /\
  (forall v, c_arg (call_of v m) = if me_cs m then "requests" else "request") /\
  c_awaited (call_of Sync m) = false /\ c_awaited (call_of Async m) = negb (me_ss m).
Proof. exact plain_returns_reply. Qed.
Print Assumptions C03_plain_returns_reply.

(* the hypotheses hold of a concrete service with names that need the keyword / transport-safe suffix and digits *)
Theorem C03_example_service :
  snake_names_distinct ex_svc /\ NoDup (map client_name (s_methods ex_svc)) /\
  no_slash (full_service ex_svc) /\ Forall (fun m => no_slash (me_name m)) (s_methods ex_svc) /\
  map key_of (s_methods ex_svc) = ["get_book"; "import_"; "create_channel_"; "get_2fa_code"; "delete_book"] /\
  wrapped_keys ex_svc = ["get_book"; "import_"; "create_channel_"; "get_2fa_code"; "delete_book"; "get_operation"; "get_location"] /\
  map st_path (transport_props ex_svc) =
    ["/google.example.library.v1.Library/GetBook"; "/google.example.library.v1.Library/Import";
     "/google.example.library.v1.Library/CreateChannel"; "/google.example.library.v1.Library/Get2FACode";
     "/google.example.library.v1.Library/DeleteBook"; "/google.longrunning.Operations/GetOperation";
     "/google.cloud.location.Locations/GetLocation"].
Proof. exact ex_svc_ok. Qed.
Print Assumptions C03_example_service.

(* the hypotheses of C03_coerce_equiv hold of a cross-package mapping with a dotted path (the former witness of the
   asyncio constructor defect, repaired in /repo by 14fc9e4): omitting the request now sends the empty request *)
Theorem C03_example_coercion :
  let m := cm ex_csigs in
  fields_mapping ex_csch ex_common true ex_csigs = Some m /\
  map fst m = ["name"; "tags"; "sub.text"; "nums"; "type"] /\ names m = ["name"; "tags"; "text"; "nums"; "type"] /\
  NoDup (map fst m) /\ fm_wf m /\ no_maps m /\
  block_ok (emit Sync m true false) = true /\ block_ok (emit Async m true false) = true /\
  exec (emit Sync m true false) RNone ex_ckw = OSend (mkReq [("tags", LL ["=sa"]); ("sub.text", LS "sx")] ["sub"]) /\
  exec (emit Async m true false) RNone ex_ckw = OSend (mkReq [("tags", LL ["=sa"]); ("sub.text", LS "sx")] ["sub"]) /\
  exec (emit Async m true false) RNone [] = OSend empty_req /\
  exec (emit Async m true false) (RDict empty_req) [("text", LS "")] = ORaiseValue.
Proof. exact ex_cross_hypotheses. Qed.
Print Assumptions C03_example_coercion.
