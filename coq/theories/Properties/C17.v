(* C17 — mixin RPCs are exposed exactly as configured in the service YAML.
   Only statements, closed by [exact], each followed by Print Assumptions.
   [cfg] ranges over ALL configurations: any `apis` list, any http.rules list (duplicates, unknown selectors, custom
   patterns, additional bindings), any services of the API itself, add-iam-methods on or off.
   CANON is the canonical method table regenerated from the installed pb2 service descriptors on every run. *)
From GV Require Import Base.Str Gen.MixinsGen Model.Case Model.Mixins Proofs.Mixins.

(* which mixin methods API.mixin_api_methods selects: exactly the canonical methods whose API is listed under `apis` and
   that have an HTTP rule, the IAM ones only while the API does not override them *)
Theorem C17_mixin_selection_spec : forall cfg name,
  In name (mixin_names cfg) <-> exists row, In row CANON /\ cr_method row = name /\ selected cfg row = true.
Proof. exact mixin_selection_spec. Qed.
Print Assumptions C17_mixin_selection_spec.

(* when a service of the API defines an rpc named like an IAM mixin method that has a rule, no IAM mixin is selected *)
Theorem C17_iam_yields_to_api_methods : forall cfg svc row,
  In svc (c_services cfg) -> In row CANON -> cr_mod row = IAM -> In (cr_method row) svc -> has_rule (fqn row) cfg = true ->
  forall row', In row' CANON -> cr_mod row' = IAM -> ~ In (cr_method row') (mixin_names cfg).
Proof. exact iam_yields_to_api_methods. Qed.
Print Assumptions C17_iam_yields_to_api_methods.

Theorem C17_iam_overrides_spec : forall cfg,
  has_iam_overrides cfg = true <->
  has_listed IAM_API cfg = true /\
  exists svc row, In svc (c_services cfg) /\ In row CANON /\ cr_mod row = IAM /\ In (cr_method row) svc /\
                  has_rule (fqn row) cfg = true.
Proof. exact iam_overrides_spec. Qed.
Print Assumptions C17_iam_overrides_spec.

(* a method of an API that is not listed is never selected, whatever the rules say *)
Theorem C17_none_when_not_listed : forall cfg row,
  In row CANON -> has_listed (cr_api row) cfg = false -> ~ In (cr_method row) (mixin_names cfg).
Proof. exact none_when_not_listed. Qed.
Print Assumptions C17_none_when_not_listed.

(* with none of the three APIs listed the clients carry no mixin method (only the legacy block, if requested), the
   tables no mixin key and the REST transport no mixin http options *)
Theorem C17_no_mixin_surface_when_none_listed : forall cfg k,
  has_listed LOC_API cfg = false -> has_listed IAM_API cfg = false -> has_listed OPS_API cfg = false ->
  client_methods k cfg = legacy_methods k cfg /\ mixin_table_keys cfg = [] /\ mixin_http_options cfg = [].
Proof. exact no_mixin_methods_when_none_listed. Qed.
Print Assumptions C17_no_mixin_surface_when_none_listed.

(* every key a mixin or legacy-IAM client method looks up in _wrapped_methods is a key of the table of the transport it
   runs on, for both clients and every configuration.  (Until /repo bb707ed the legacy IAM methods of the asyncio client
   refuted this — DESIGN section 9 no. 3; the witness stays in corpus/C17 and is driven on every run.) *)
Theorem C17_mixin_lookup_total : forall cfg k own m key,
  In m (client_methods k cfg) -> m_lookup m = Some key -> In key (table_keys cfg own).
Proof. exact mixin_lookup_total. Qed.
Print Assumptions C17_mixin_lookup_total.

(* the legacy add-iam-methods client methods index no table: they wrap a transport property, and the gRPC transports have it *)
Theorem C17_legacy_methods_wrap_existing_property : forall cfg k m,
  In m (legacy_methods k cfg) -> m_lookup m = None /\ In (m_name m) (grpc_props cfg).
Proof. exact legacy_methods_wrap_existing_property. Qed.
Print Assumptions C17_legacy_methods_wrap_existing_property.

Example C17_example_legacy :
  map (fun m => (m_name m, m_lookup m)) (client_methods Async legacy_cfg) =
  [("set_iam_policy", None); ("get_iam_policy", None); ("test_iam_permissions", None)] /\
  grpc_props legacy_cfg = ["set_iam_policy"; "get_iam_policy"; "test_iam_permissions"].
Proof. exact legacy_cfg_no_lookup. Qed.
Print Assumptions C17_example_legacy.

(* every mixin key of the table has a stub property on the gRPC transports, so the table can be built *)
Theorem C17_table_constructible : forall cfg name, In name (mixin_table_keys cfg) -> In name (grpc_props cfg).
Proof. exact table_constructible. Qed.
Print Assumptions C17_table_constructible.

(* for every configuration, every stub property of the emitted gRPC transports calls /<api>/<Method> of the canonical
   table with the canonical request type *)
Theorem C17_canonical_paths_and_request_types : forall cfg s,
  In s (grpc_stubs cfg) -> exists r, In r CANON /\ cr_method r = s_name s /\ s_path s = grpc_path r /\ s_req s = cr_in r.
Proof. exact emitted_stubs_canonical. Qed.
Print Assumptions C17_canonical_paths_and_request_types.

(* ... and deserializes the canonical response type (None exactly for google.protobuf.Empty) — every method, WaitOperation
   included since /repo e72fa5d; the former witness is driven over gRPC on every run *)
Theorem C17_canonical_response_types : forall cfg s,
  In s (grpc_stubs cfg) -> exists r, In r CANON /\ cr_method r = s_name s /\ resp_canonical s r = true.
Proof. exact emitted_stubs_canonical_response. Qed.
Print Assumptions C17_canonical_response_types.

(* REST: the request carries a body exactly when the binding that matched has one, whatever the rule's other bindings are *)
Theorem C17_rest_body_follows_matched_binding : forall opts o,
  In o opts -> rest_sends_body opts o = has_body o.
Proof. exact rest_body_follows_matched_binding. Qed.
Print Assumptions C17_rest_body_follows_matched_binding.

Example C17_example_mixed_bindings :
  let opts := rule_options (mkRule "google.iam.v1.IAMPolicy.GetIamPolicy" (mkB "get" "/v1/{resource=a/*}:get" "") [mkB "post" "/v1/{resource=b/*}:get" "*"]) in
  rest_body_defined opts = true /\ map (rest_sends_body opts) opts = [false; true].
Proof. exact ex_mixed_bindings. Qed.
Print Assumptions C17_example_mixed_bindings.

(* a request given as a dict is coerced to the canonical request type of the method — every mixin method and every legacy
   add-iam-methods method, on both clients, for every configuration *)
Theorem C17_dict_requests_coerced_to_canonical_type : forall cfg k n o,
  In (n, o) (client_coercions k cfg) -> exists r, In r CANON /\ n = snake (cr_method r) /\ o = Some (cr_in r).
Proof. exact dict_requests_coerced_to_canonical_type. Qed.
Print Assumptions C17_dict_requests_coerced_to_canonical_type.

(* the routing header of every client mixin method names the resource-name field of the canonical request *)
Theorem C17_canonical_routing_fields : forall t,
  In t CLIENT_TMPL -> exists r, In r CANON /\ cr_method r = t_name t /\ cr_route r = t_route t.
Proof. exact canonical_routing_fields. Qed.
Print Assumptions C17_canonical_routing_fields.

(* the request / response classes the REST transport uses (MIXINS_MAP) are the canonical ones *)
Theorem C17_canonical_signatures : forall cfg name sg,
  In (name, sg) (mixin_signatures cfg) ->
  exists r i o, In r CANON /\ cr_method r = name /\ sg = Some (i, o) /\ i = cr_in r /\
                (cr_out r = EMPTY -> o = "None") /\ (cr_out r <> EMPTY -> o = cr_out r).
Proof. exact canonical_signatures. Qed.
Print Assumptions C17_canonical_signatures.

(* the REST http options of a mixin method are the parsed bindings of a rule of the YAML whose selector names it
   (partial: that it is the LAST such rule is checked by T2 and the oracle, not proved) *)
Theorem C17_http_options_come_from_a_rule_partial : forall cfg name opts,
  In (name, opts) (mixin_http_options cfg) ->
  exists row rl, In row CANON /\ cr_method row = name /\ In rl (c_rules cfg) /\ r_selector rl = fqn row /\
                 opts = rule_options rl.
Proof. exact http_options_come_from_a_rule_partial. Qed.
Print Assumptions C17_http_options_come_from_a_rule_partial.

Theorem C17_parse_binding_as_written : forall v u b,
  mem_str v ["get"; "put"; "post"; "delete"; "patch"] = true -> u <> "" -> convert_uri u = u ->
  Model.Reserved.body_attr b = b ->
  parse_binding (mkB v u b) = Some (mkH v u (if is_empty b then None else Some b)).
Proof. exact parse_binding_as_written. Qed.
Print Assumptions C17_parse_binding_as_written.

(* non-vacuity: all three APIs listed, partial rules, a duplicated selector, an additional binding *)
Example C17_example_selection :
  mixin_names ex_cfg = ["ListLocations"; "SetIamPolicy"; "GetOperation"] /\
  assoc "GetOperation" (mixin_http_options ex_cfg) = Some [mkH "get" "/v2/{name=operations/**}" None] /\
  map m_name (client_methods Async ex_cfg) = ["get_operation"; "set_iam_policy"; "list_locations"] /\
  mixin_table_keys ex_cfg = ["list_locations"; "set_iam_policy"; "get_operation"].
Proof. exact ex_cfg_selection. Qed.
Print Assumptions C17_example_selection.

Example C17_example_override : has_iam_overrides ex_override = true /\ mixin_names ex_override = [].
Proof. exact ex_override_yields. Qed.
Print Assumptions C17_example_override.

Example C17_example_unlisted :
  has_listed LOC_API ex_unlisted = false /\ has_listed IAM_API ex_unlisted = false /\ has_listed OPS_API ex_unlisted = false /\
  mixin_names ex_unlisted = [] /\ client_methods Async ex_unlisted = [].
Proof. exact ex_unlisted_none. Qed.
Print Assumptions C17_example_unlisted.

Example C17_example_surface :
  c_add_iam ex_cfg = false /\ In (mkM "get_operation" (Some "get_operation") "name" false) (client_methods Sync ex_cfg) /\
  map (fun s => s_name s) (grpc_stubs ex_cfg) = ["GetOperation"; "ListLocations"; "SetIamPolicy"] /\
  In ("SetIamPolicy", Some ("google.iam.v1.SetIamPolicyRequest", "google.iam.v1.Policy")) (mixin_signatures ex_cfg).
Proof. exact ex_cfg_surface. Qed.
Print Assumptions C17_example_surface.

Example C17_example_parse_binding :
  mem_str "post" ["get"; "put"; "post"; "delete"; "patch"] = true /\ convert_uri "/v1/{resource=projects/*}:setIamPolicy" = "/v1/{resource=projects/*}:setIamPolicy" /\
  Model.Reserved.body_attr "*" = "*" /\ convert_uri "/v1/{class=x/*}" = "/v1/{class_=x/*}".
Proof. exact ex_parse_binding. Qed.
Print Assumptions C17_example_parse_binding.
