(* C04 — REST calls transcode each request exactly as its google.api.http rule prescribes.
   Only statements, closed by [exact], each followed by Print Assumptions.
   Model: Model/Http.v (generator side: http_options, defaults table; emitted side: run) over the abstract request
   valuations of Model/HttpValues.v.  [transcode] is the contract of google.api_core.path_template.transcode. *)
From Coq Require Import Permutation.
From GV Require Import Base.Str Gen.Kw Model.Reserved Model.Case Model.HttpValues Model.Http Proofs.Http Proofs.HttpUri.
Local Open Scope list_scope.

(* no loss, no duplication: for every request valuation and every list of bindings, when a binding applies the
   leaves consumed by the path, the body and the query are a partition of the request's leaves *)
Theorem C04_transcode_partition : forall attrs opts r t,
  transcode attrs opts r = Some t -> Permutation (t_path t ++ body_leaves t ++ t_query t) r.
Proof. exact transcode_partition_l. Qed.
Print Assumptions C04_transcode_partition.

(* body "*" = the remainder (and an empty query), body field = exactly the leaves of that field, none = no body *)
Theorem C04_body_spec : forall attrs opts r t,
  transcode attrs opts r = Some t ->
  exists b, nth_error opts (t_index t) = Some b /\
    let vars := var_names (utoks (b_uri b)) in
    let lo := filter (fun l => negb (is_var_leaf vars l)) r in
    t_path t = filter (is_var_leaf vars) r /\
    match body_of b with
    | BAll => t_body t = Some lo /\ t_query t = []
    | BField f => t_body t = Some (filter (head_is f) lo) /\ t_query t = filter (fun l => negb (head_is f l)) lo
    | BNone => t_body t = None /\ t_query t = lo
    end.
Proof. exact body_spec_l. Qed.
Print Assumptions C04_body_spec.

Theorem C04_body_spec_mem : forall attrs opts r t,
  transcode attrs opts r = Some t ->
  exists b, nth_error opts (t_index t) = Some b /\
    forall l, In l r -> is_var_leaf (var_names (utoks (b_uri b))) l = false ->
      match body_of b with
      | BAll => In l (body_leaves t) /\ ~ In l (t_query t)
      | BField f => if head_is f l then In l (body_leaves t) /\ ~ In l (t_query t)
                    else In l (t_query t) /\ ~ In l (body_leaves t)
      | BNone => In l (t_query t) /\ t_body t = None
      end.
Proof. exact body_spec_mem_l. Qed.
Print Assumptions C04_body_spec_mem.

(* the binding taken is the first whose expanded uri validates with every path variable set ... *)
Theorem C04_first_matching_binding : forall attrs opts r t,
  transcode attrs opts r = Some t ->
  exists b, nth_error opts (t_index t) = Some b /\ applies attrs b r = true /\
            t_method t = b_method b /\ t_uri t = expand (utoks (b_uri b)) r /\
            (forall j b', j < t_index t -> nth_error opts j = Some b' -> applies attrs b' r = false).
Proof. exact first_matching_binding_l. Qed.
Print Assumptions C04_first_matching_binding.

Theorem C04_no_binding_applies : forall attrs opts r,
  transcode attrs opts r = None <-> (forall b, In b opts -> applies attrs b r = false).
Proof. exact no_binding_applies_l. Qed.
Print Assumptions C04_no_binding_applies.

(* ... and no binding that google.api.http says applies (all variables set and matching their OWN sub-template)
   is skipped.  The converse fails: validate() looks at the whole uri (C04_validate_whole_uri_refuted). *)
Theorem C04_first_matching_spec : forall attrs opts r t,
  transcode attrs opts r = Some t ->
  forall j b', j < t_index t -> nth_error opts j = Some b' -> body_attr_ok attrs b' = true ->
    spec_applies b' r = false.
Proof. exact first_matching_spec_l. Qed.
Print Assumptions C04_first_matching_spec.

Theorem C04_spec_applies_applies : forall attrs b r,
  spec_applies b r = true -> body_attr_ok attrs b = true -> applies attrs b r = true.
Proof. exact spec_applies_applies. Qed.
Print Assumptions C04_spec_applies_applies.

Theorem C04_validate_whole_uri_refuted :
  exists r, applies ["a"; "b"]%string seg_binding r = true /\ spec_applies seg_binding r = false /\
            expand (utoks (b_uri seg_binding)) r = "/v1/x/y/z"%string.
Proof. exact validate_whole_uri_refuted. Qed.
Print Assumptions C04_validate_whole_uri_refuted.

(* every required scalar field that the FIRST rule binds neither by path nor by body is represented in the query
   of every request that is sent, default-valued or not.
   PARTIAL: the table is computed from the first rule; for a request sent through an ADDITIONAL binding the
   statement with "bound by the binding taken" is false (C04_required_defaults_additional_refuted,
   C04_defaults_duplicate_additional_refuted); it is also silent on what value is sent (bytes: refuted below). *)
Theorem C04_required_defaults_complete_partial : forall numeric m r v u q bd f,
  run numeric m r = Sent v u q bd ->
  In f (m_fields m) -> f_required f = true -> scalar_type (f_type f) = true ->
  unbound_first m f = true -> names_agree m = true ->
  exists key val, In (key, val) q /\ key_under (to_json_name (f_name f)) key = true.
Proof. exact required_defaults_complete_l. Qed.
Print Assumptions C04_required_defaults_complete_partial.

Theorem C04_required_defaults_additional_refuted :
  exists m r f q, run false m r = Sent "get" "/v1/ps/p/items" q None /\
    In f (m_fields m) /\ f_required f = true /\ scalar_type (f_type f) = true /\
    (forall t, transcode (attrs_of m) (http_options m) r = Some t ->
               t_index t = 1 /\ t_path t = [sleaf [F "parent"] "ps/p"]) /\
    forall key val, In (key, val) q -> key_under (to_json_name (f_name f)) key = false.
Proof. exact required_defaults_additional_refuted. Qed.
Print Assumptions C04_required_defaults_additional_refuted.

Theorem C04_defaults_duplicate_additional_refuted :
  exists q b, run false ex_method [sleaf [F "name"] "items/i3"; sleaf [F "big"] "5"]
              = Sent "put" "/v2/items/i3" q (Some b) /\
    In ("big", "5")%string b /\ In ("big", "0")%string q.
Proof. exact defaults_duplicate_additional_refuted. Qed.
Print Assumptions C04_defaults_duplicate_additional_refuted.

(* formerly C04_defaults_duplicate_reserved_refuted; fixed in /repo by c409a6e.  A field named by the first rule as a
   path variable or as its body (reserved word or not) does not enter the defaults table, hence is not sent again *)
Theorem C04_defaults_exclude_bound : forall m verb u f,
  r_pat (m_rule m) = PVerb verb u ->
  In f (filter (fun f => f_required f && mem_str (field_attr (f_name f)) (query_params m)) (m_fields m)) ->
  ~ In (f_name f) (path_params u ++ (if is_empty (r_body (m_rule m)) then [] else [r_body (m_rule m)])).
Proof. exact defaults_exclude_bound. Qed.
Print Assumptions C04_defaults_exclude_bound.

Example C04_reserved_path_variable_not_duplicated :
  run false kw_method [sleaf [F "class"] "items/c"] = Sent "get" "/v1/items/c" [] None /\
  defaults_table kw_method = Some [].
Proof. exact reserved_path_variable_not_duplicated. Qed.
Print Assumptions C04_reserved_path_variable_not_duplicated.

Theorem C04_body_first_rule_only_refuted :
  run false ex_method [sleaf [F "class"] "cls/c1"] = Fail BodyKeyError /\
  run false body_method [sleaf [F "parent"] "ps/p"; sleaf [F "title"] "t"] = Sent "post" "/v1/ps/p/items" [] None.
Proof. exact body_first_rule_only_refuted. Qed.
Print Assumptions C04_body_first_rule_only_refuted.

Theorem C04_required_default_bytes_refuted :
  exists q bd, run false ex_method ex_req = Sent "post" "/v1/items/i1/things/t1:one" q bd /\
               In ("blob", "b''")%string q.
Proof. exact required_default_bytes_refuted. Qed.
Print Assumptions C04_required_default_bytes_refuted.

Theorem C04_required_default_repeated_refuted :
  exists q bd, run false ex_method [sleaf [F "name"] "items/i3"] = Sent "put" "/v2/items/i3" q bd /\
               In ("tags", "")%string q.
Proof. exact required_default_repeated_refuted. Qed.
Print Assumptions C04_required_default_repeated_refuted.

(* the marker is the last query pair iff numeric enums are requested; enum leaves of query and body travel as
   numbers iff requested, as names otherwise *)
Theorem C04_numeric_enum_switch : forall numeric m r v u q bd,
  run numeric m r = Sent v u q bd ->
  exists t, transcode (attrs_of m) (http_options m) r = Some t /\
    q = (query_pairs numeric (t_query t) ++ unset_required (tbl_of m) (top_keys (t_query t)))
        ++ (if numeric then [alt_pair] else []) /\
    (forall l name num, In l (t_query t) -> lval l = VE name num ->
       In (sjoin "." (map json_key (lpath l)), if numeric then num else name) q) /\
    (forall bl pairs l name num, t_body t = Some bl -> bd = Some pairs -> In l bl -> lval l = VE name num ->
       exists key, In (key, if numeric then num else name) pairs).
Proof. exact numeric_enum_switch_l. Qed.
Print Assumptions C04_numeric_enum_switch.

Theorem C04_alt_iff_numeric : forall numeric m r v u q bd,
  run numeric m r = Sent v u q bd ->
  (numeric = true -> In alt_pair q) /\
  (numeric = false ->
     forall t, transcode (attrs_of m) (http_options m) r = Some t ->
     ~ In "$alt"%string (top_keys (t_query t)) -> ~ In "$alt"%string (map fst (tbl_of m)) ->
     Forall (fun l => lpath l <> []) (t_query t) ->
     ~ In alt_pair q).
Proof. exact alt_iff_numeric_l. Qed.
Print Assumptions C04_alt_iff_numeric.

(* JSON keys (query and body) are the lowerCamel form of the name in the .proto although attribute and uri
   variable carry the reserved-word suffix *)
Theorem C04_wire_names_original : forall numeric m r v u q bd,
  run numeric m r = Sent v u q bd ->
  exists t, transcode (attrs_of m) (http_options m) r = Some t /\
    (forall l, In l (t_query t) ->
       In (sjoin "." (map orig_key (lpath l)), json_text numeric (lval l)) q) /\
    (forall bl pairs l, t_body t = Some bl -> bd = Some pairs -> In l bl ->
       exists drop, In (sjoin usep (map orig_key (skipn drop (lpath l))), json_text numeric (lval l)) pairs).
Proof. exact wire_names_original_l. Qed.
Print Assumptions C04_wire_names_original.

Theorem C04_json_name_suffix_irrelevant : forall n, to_json_name (field_attr n) = to_json_name n.
Proof. exact json_name_suffix_irrelevant. Qed.
Print Assumptions C04_json_name_suffix_irrelevant.

(* the URI half: the emitted uri string tokenizes to the converted tokens (printer/tokenizer round trip), the converted
   dotted name splits into the suffixed components (split/join round trip), so the URL of a request that is sent is
   the ORIGINAL template of a declared rule with every variable replaced by the value found under the ORIGINAL proto
   path; no (suffixed) name reaches the wire.  Hypotheses are decidable and evaluated on every generated uri/request:
   the converted tokens are printable, and no name is a reserved word followed by "_" (C04_ex_suffix_clash) *)
Theorem C04_uri_round_trip : forall u,
  printable (map fix_tok (utoks u)) = true -> utoks (convert_uri u) = map fix_tok (utoks u).
Proof. exact utoks_convert_uri. Qed.
Print Assumptions C04_uri_round_trip.

Theorem C04_dotted_fix_path : forall n, dotted (fix_path n) = map field_attr (dotted n).
Proof. exact dotted_fix_path. Qed.
Print Assumptions C04_dotted_fix_path.

Theorem C04_uri_names_proto : forall u r,
  printable (map fix_tok (utoks u)) = true -> names_clash_free (utoks u) = true -> req_clash_free r = true ->
  expand (utoks (convert_uri u)) r = expand_proto (utoks u) r.
Proof. exact uri_names_proto_l. Qed.
Print Assumptions C04_uri_names_proto.

Theorem C04_wire_names_uri : forall numeric m r v u q bd,
  run numeric m r = Sent v u q bd ->
  exists ru verb uri, In ru (m_rule m :: m_more m) /\ r_pat ru = PVerb verb uri /\ v = verb /\
    (printable (map fix_tok (utoks uri)) = true -> names_clash_free (utoks uri) = true -> req_clash_free r = true ->
     u = expand_proto (utoks uri) r).
Proof. exact wire_names_uri_l. Qed.
Print Assumptions C04_wire_names_uri.

Example C04_ex_uri_hyps :
  printable (map fix_tok (utoks "/v1.1/{name=items/*}/{sub.class=things/*}:one")) = true /\
  names_clash_free (utoks "/v1.1/{name=items/*}/{sub.class=things/*}:one") = true /\
  req_clash_free [mkLeaf [F "name"] (VS "items/i1") false; mkLeaf [F "sub"; F "class"] (VS "things/t1") false] = true /\
  expand (utoks (convert_uri "/v1.1/{name=items/*}/{sub.class=things/*}:one"))
         [mkLeaf [F "name"] (VS "items/i1") false; mkLeaf [F "sub"; F "class"] (VS "things/t1") false]
  = "/v1.1/items/i1/things/t1:one"%string.
Proof. exact ex_uri_hyps. Qed.
Print Assumptions C04_ex_uri_hyps.

Example C04_ex_suffix_clash : field_attr "class" = field_attr "class_" /\ suffix_clash "class_" = true.
Proof. exact ex_suffix_clash. Qed.
Print Assumptions C04_ex_suffix_clash.

(* server-streaming calls: the request side is [run] as for unary calls; the emitted session call passes data=body iff
   the first binding has a body, whatever the streaming flag and the transport flavour (tied by T1 to the keyword list
   of every emitted _get_response, and by T2/oracle to driven server-streaming calls) *)
Theorem C04_data_kw_iff_body : forall body is_async streaming,
  In "data"%string (response_kwargs body is_async streaming) <-> body = true.
Proof. exact data_kw_iff_body. Qed.
Print Assumptions C04_data_kw_iff_body.

(* methods without a binding refuse the REST transport, and only those (and client-streaming ones) do *)
Theorem C04_no_binding_not_implemented : forall numeric m r,
  http_options m = [] -> run numeric m r = Fail NotImplemented.
Proof. exact no_binding_not_implemented_l. Qed.
Print Assumptions C04_no_binding_not_implemented.

Theorem C04_not_implemented_iff : forall numeric m r,
  run numeric m r = Fail NotImplemented <-> (http_options m = [] \/ m_client_streaming m = true).
Proof. exact not_implemented_iff. Qed.
Print Assumptions C04_not_implemented_iff.

Theorem C04_http_options_nil : forall m,
  http_options m = [] <-> (forall ru, In ru (m_rule m :: m_more m) -> try_parse ru = None).
Proof. exact http_options_nil. Qed.
Print Assumptions C04_http_options_nil.

(* non-vacuity: the running example (three bindings, nested variable, reserved word, required fields) *)
Example C04_ex_run :
  run false ex_method ex_req =
  Sent "post" "/v1/items/i1/things/t1:one"
       [("kind", "KIND_A"); ("tags", "a"); ("tags", "b"); ("labels.k.x", "v"); ("from", "f"); ("class", "");
        ("pageSize", "0"); ("flag", "false"); ("ratio", "0.0"); ("blob", "b''"); ("big", "0")]%string
       (Some [("count", "3")]%string).
Proof. exact ex_run. Qed.
Print Assumptions C04_ex_run.

Example C04_ex_required_hyps :
  In (fld "page_size" 5 true) (m_fields ex_method) /\ scalar_type 5 = true /\
  unbound_first ex_method (fld "page_size" 5 true) = true /\ names_agree ex_method = true.
Proof. exact ex_required_hyps. Qed.
Print Assumptions C04_ex_required_hyps.

Example C04_ex_alt_hyps :
  exists t, transcode (attrs_of ex_method) (http_options ex_method) ex_req = Some t /\
            ~ In "$alt"%string (top_keys (t_query t)) /\ ~ In "$alt"%string (map fst (tbl_of ex_method)) /\
            Forall (fun l => lpath l <> []) (t_query t).
Proof. exact ex_alt_hyps. Qed.
Print Assumptions C04_ex_alt_hyps.

Example C04_ex_spec_applies :
  spec_applies (mkBinding "post" "/v1/{name=items/*}/{sub.class_=things/*}:one" (Some "sub")) ex_req = true
  /\ body_attr_ok (attrs_of ex_method) (mkBinding "post" "/v1/{name=items/*}/{sub.class_=things/*}:one" (Some "sub")) = true.
Proof. exact ex_spec_applies_full. Qed.
Print Assumptions C04_ex_spec_applies.

Example C04_ex_second_binding :
  exists t b0, transcode (attrs_of add_method) (http_options add_method) [sleaf [F "parent"] "ps/p"] = Some t /\
    0 < t_index t /\ nth_error (http_options add_method) 0 = Some b0 /\
    body_attr_ok (attrs_of add_method) b0 = true /\ spec_applies b0 [sleaf [F "parent"] "ps/p"] = false.
Proof. exact ex_second_binding. Qed.
Print Assumptions C04_ex_second_binding.

Example C04_ex_run_numeric :
  run true ex_method ex_req =
  Sent "post" "/v1/items/i1/things/t1:one"
       [("kind", "1"); ("tags", "a"); ("tags", "b"); ("labels.k.x", "v"); ("from", "f"); ("class", "");
        ("pageSize", "0"); ("flag", "false"); ("ratio", "0.0"); ("blob", "b''"); ("big", "0");
        ("$alt", "json;enum-encoding=int")]%string
       (Some [("count", "3")]%string).
Proof. exact ex_run_numeric. Qed.
Print Assumptions C04_ex_run_numeric.
